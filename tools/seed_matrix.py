"""Run every kept seeded change against the checks of its own and related properties; record what catches it.
Applies the patch to /repo (git apply), runs ./check, and undoes it straight afterwards (git checkout -- .)."""
import json
import os
import re
import subprocess
import sys

ROOT = os.path.dirname(os.path.dirname(os.path.abspath(__file__)))
sys.path.insert(0, ROOT)
import propmap  # noqa: E402

RELATED = {'C18-2': ['C18', 'C01', 'C02'], 'C02-1': ['C02', 'C03'], 'C08-2': ['C08', 'C13'], 'C05-1': ['C05', 'C04', 'C01'], 'C01-1': ['C01', 'C04', 'C05'],
           'C09-1': ['C09', 'C06', 'C02'], 'C04-1': ['C04', 'C01'], 'C11-1': ['C11', 'C19'], 'C19-1': ['C19', 'C11'], 'C02-2': ['C02', 'C01'],
           'C06-1': ['C06'], 'C01-2': ['C01'], 'C18-1': ['C18', 'C11'], 'C11-2': ['C11'],
           'C07-2': ['C07', 'C01'], 'C04-5': ['C04', 'C01'], 'C08-5': ['C08', 'C04', 'C01'], 'C08-6': ['C08', 'C11'], 'C01-5': ['C01', 'C04'], 'C01-6': ['C01', 'C03'], 'C09-5': ['C09', 'C02', 'C01'],
           'C03-8': ['C03', 'C04', 'C01'], 'C05-7': ['C05', 'C04', 'C01'], 'C11-8': ['C11', 'C01'], 'C02-8': ['C02', 'C01', 'C03'], 'C10-8': ['C10', 'C16'], 'C07-4': ['C07', 'C01'],
           'C18-8': ['C18', 'C13'], 'C08-7': ['C08', 'C11'], 'C09-8': ['C09', 'C02', 'C01'], 'C18-7': ['C18', 'C10', 'C16'], 'C13-8': ['C13', 'C08'],
           'C04-8': ['C04', 'C18'], 'C06-10': ['C06', 'C10', 'C08'], 'C01-7': ['C01', 'C07'], 'C01-8': ['C01', 'C03'], 'C06-9': ['C06', 'C01'],
           'C02-10': ['C02', 'C01', 'C11'], 'C03-9': ['C03', 'C01', 'C02'], 'C07-5': ['C07', 'C01', 'C02'], 'C07-6': ['C07', 'C01', 'C02'], 'C18-9': ['C18', 'C17'], 'C05-9': ['C05', 'C04', 'C03'],
           'C09-10': ['C09', 'C10', 'C08'], 'C01-12': ['C01', 'C03'], 'C08-11': ['C08', 'C11'], 'C04-12': ['C04', 'C01', 'C05'], 'C16-11': ['C16', 'C05'], 'C07-8': ['C07', 'C01'], 'C10-11': ['C10', 'C16']}


def sh(cmd, cwd=None):
    p = subprocess.run(cmd, shell=True, cwd=cwd, stdout=subprocess.PIPE, stderr=subprocess.STDOUT)
    return p.returncode, p.stdout.decode(errors='replace')


def run_seed(sd, repo, env):
    """apply one seeded change to the given checkout of /repo, run the related checks against it, undo it"""
    pid = sd.split('-')[0]
    props = [p for p in RELATED.get(sd, [pid]) if p in propmap.PROPS]
    patch = os.path.join(ROOT, 'seeded', sd, 'patch.diff')
    if os.path.exists(os.path.join(ROOT, 'seeded', sd, 'patch.rebased.diff')):
        # the same change re-expressed on the current /repo HEAD (a later fix: commit touched the same lines)
        patch = os.path.join(ROOT, 'seeded', sd, 'patch.rebased.diff')
    rc, out = sh('git apply %s' % patch, repo)
    res = {}
    if rc != 0:
        res = {'error': 'patch does not apply to the current /repo HEAD: ' + out[-300:]}
    else:
        for p in props:
            rc, out = sh('%s ./check %s' % (env, p), ROOT)
            vio = [l for l in out.splitlines() if l.startswith('VIOLATION')]
            obs = [l.strip() for l in out.splitlines() if l.strip().startswith('failed obligation')][:3]
            res[p] = {'exit': rc, 'violation_lines': vio[:3], 'failed_obligations': [o[:260] for o in obs],
                      'undecided': [l[:200] for l in out.splitlines() if l.startswith('UNDECIDED')][:2]}
    sh('git checkout -- .', repo)
    caught = sorted(p for p, r in res.items() if isinstance(r, dict) and r.get('exit') == 1)
    return {'checked': props, 'caught_by': caught, 'results': res, 'not_claimed': [p for p in RELATED.get(sd, [pid]) if p not in propmap.PROPS]}


def main():
    """seed_matrix.py [-j N] [seed ...]: with -j N > 1 the seeds are distributed over N scratch worktrees of /repo (each with its own
    build directory and evidence directory, removed afterwards); the registered checks themselves are unchanged and /repo is not touched."""
    args = sys.argv[1:]
    jobs = 1
    if args[:1] == ['-j']:
        jobs = int(args[1]); args = args[2:]
    only = args
    seeds = sorted(d for d in os.listdir(os.path.join(ROOT, 'seeded')) if os.path.exists(os.path.join(ROOT, 'seeded', d, 'patch.diff')))
    seeds = [s for s in seeds if not only or s in only]
    rc, out = sh('git status --porcelain --untracked-files=no', '/repo')
    if out.strip():
        print('/repo has uncommitted changes'); sys.exit(2)
    table = {}
    mp0 = os.path.join(ROOT, 'seeded', 'MATRIX.json')
    if os.path.exists(mp0) and only:
        table = json.load(open(mp0))

    def record(sd, r):
        table[sd] = r
        mp = os.path.join(ROOT, 'seeded', sd, 'meta.json')
        try:
            meta = json.load(open(mp))
        except Exception:
            meta = {}
        meta['verif'] = r
        cf = os.path.join(ROOT, 'seeded', sd, 'confirm.json')
        if os.path.exists(cf):
            meta['confirmed_by_us'] = json.load(open(cf))
        json.dump(meta, open(mp, 'w'), indent=1)
        print('%-6s checked=%s caught_by=%s' % (sd, ','.join(r['checked']) or '-', ','.join(r['caught_by']) or ('-' if r['checked'] else 'property not claimed')), flush=True)

    if jobs <= 1:
        for sd in seeds:
            record(sd, run_seed(sd, '/repo', ''))
    else:
        import threading
        import queue
        q = queue.Queue()
        for sd in seeds:
            q.put(sd)
        lock = threading.Lock()

        def worker(k):
            wt, bd, ev = '/tmp/seedmx/wt%d' % k, '/tmp/seedmx/build%d' % k, '/tmp/seedmx/ev%d' % k
            sh('git -C /repo worktree add --detach %s HEAD' % wt)
            env = 'VERIF_REPO=%s VERIF_BUILD=%s VERIF_EVIDENCE=%s' % (wt, bd, ev)
            try:
                while True:
                    try:
                        sd = q.get_nowait()
                    except queue.Empty:
                        break
                    r = run_seed(sd, wt, env)
                    with lock:
                        record(sd, r)
            finally:
                sh('git -C /repo worktree remove --force %s' % wt)
                sh('rm -rf %s %s' % (bd, ev))
        os.makedirs('/tmp/seedmx', exist_ok=True)
        ts = [threading.Thread(target=worker, args=(k,)) for k in range(jobs)]
        for t in ts:
            t.start()
        for t in ts:
            t.join()
    json.dump(table, open(os.path.join(ROOT, 'seeded', 'MATRIX.json'), 'w'), indent=1)


if __name__ == '__main__':
    main()
