"""Discharge the contracts of one unit with goto-cc / goto-instrument --dfcc / cbmc.

One cbmc process per function under proof; callees named in 'replace' (and every
stub declared by the unit) are replaced by their contracts, so a caller is
checked against the callee's contract, not its body.
"""
import concurrent.futures as cf
import copy
import importlib
import json
import os
import re
import resource
import subprocess
import time

from . import astdump, cxx2c

ROOT = astdump.ROOT
BUILD = astdump.BUILD
GEN = os.path.join(BUILD, 'gen')

# Memory safety of every dereference/index, signed overflow and division by zero (undefined behaviour).
# Not on by default: --pointer-overflow-check (flags forming `p + 2` beyond one-past-the-end even when it is
# only compared, which is stricter than any property here) and --conversion-check / --unsigned-overflow-check
# (explicit narrowing and unsigned wrap-around are defined behaviour; units switch them on where a clause needs them).
DEFAULT_CHECKS = ['--bounds-check', '--pointer-check', '--signed-overflow-check', '--div-by-zero-check']


class Undecided(Exception):
    pass


def load_unit(name):
    mod = importlib.import_module('units.' + name)
    importlib.reload(mod)
    return copy.deepcopy(mod.UNIT)


def unit_sources(name):
    u = load_unit(name)
    return [u['source']] + list(u.get('extra_sources', []))


def emit_stub(name, st):
    """C text of an assumed-contract stub declared in a unit."""
    out = '%s %s(%s)\n' % (st.get('ret', 'void'), name, st.get('params', 'void'))
    for r in st.get('requires', []) or ['1']:
        out += '__CPROVER_requires(%s)\n' % (r[1] if isinstance(r, tuple) else r)
    out += '__CPROVER_assigns(%s)\n' % ', '.join(st.get('assigns', []))
    for e in st.get('ensures', []) or ['1']:
        out += '__CPROVER_ensures(%s)\n' % (e[1] if isinstance(e, tuple) else e)
    if 'body' in st:
        out += '{\n%s\n}\n' % st['body']
    else:
        out += ';\n'
    return out


def translate(unit):
    u = unit
    stubs = u.get('stubs', {})
    if stubs:
        u['models'] = u.get('models', '') + '\n' + '\n'.join(emit_stub(n, s) for n, s in stubs.items())
    t = cxx2c.Translator(u)
    text = t.run()
    if t.externs:
        missing = [e for e in t.externs if not e.startswith('__builtin_') and not re.search(r'\b%s\s*\(' % re.escape(e), u.get('models', '') + u.get('prelude', '') + _included(u))]
        if missing:
            raise cxx2c.Unsupported('callees without model or contract: %s' % ', '.join('%s [%s]' % (m, t.externs[m]) for m in missing))
    return t, text


def _included(u):
    out = ''
    for m in re.finditer(r'#include "([^"]+)"', u.get('prelude', '') + u.get('models', '') + u.get('after_structs', '') + u.get('after_forward', '')):
        p = os.path.join(ROOT, m.group(1))
        if os.path.exists(p):
            s = open(p).read()
            out += s
            for m2 in re.finditer(r'#include "([^"]+)"', s):
                p2 = os.path.join(ROOT, 'models', m2.group(1))
                if os.path.exists(p2):
                    out += open(p2).read()
    return out


def harness_for(t, cname, spec):
    ret, params = t.sigs[cname]
    decls, args = [], []
    for i, p in enumerate(params):
        m = re.match(r'(.*?)([A-Za-z_][A-Za-z0-9_]*)$', p.strip())
        ty, nm = m.group(1), m.group(2)
        decls.append('  %s a_%s;' % (ty.strip(), nm))
        args.append('a_' + nm)
    pre = spec.get('harness_pre', '')
    call = '%s(%s);' % (cname, ', '.join(args))
    # vacuity guard: this assertion MUST fail; if it is discharged the preconditions are contradictory
    canary = '__CPROVER_assert(0, "VERIF_CANARY end of harness reachable");'
    return 'void h_%s(void) {\n%s\n%s\n  %s\n  %s\n}\n' % (cname, '\n'.join(decls), pre, call, canary)


def _limit(mem_gb):
    def f():
        b = int(mem_gb * (1 << 30))
        resource.setrlimit(resource.RLIMIT_AS, (b, b))
    return f


def run(cmd, timeout, mem_gb=12, cwd=None):
    t0 = time.time()
    try:
        p = subprocess.run(cmd, stdout=subprocess.PIPE, stderr=subprocess.PIPE, timeout=timeout,
                           cwd=cwd, preexec_fn=_limit(mem_gb))
        return p.returncode, p.stdout.decode(errors='replace'), p.stderr.decode(errors='replace'), time.time() - t0
    except subprocess.TimeoutExpired as e:
        return 'timeout', (e.stdout or b'').decode(errors='replace'), (e.stderr or b'').decode(errors='replace'), time.time() - t0


def parse_cbmc(out):
    try:
        js = json.loads(out)
    except ValueError:
        return None, 'unparseable cbmc output'
    res, errs, status = None, [], None
    for item in js:
        if 'result' in item:
            res = item['result']
        if item.get('messageType') == 'ERROR':
            errs.append(item.get('messageText', ''))
        if 'cProverStatus' in item:
            status = item['cProverStatus']
    if res is None:
        return None, '; '.join(errs) or 'no result from cbmc'
    return res, status


def digest_trace(tr, limit=80):
    """Keep the user-level assignments of a cbmc trace (dfcc bookkeeping dropped)."""
    if not tr:
        return None
    out = []
    for st in tr:
        if st.get('stepType') != 'assignment' or st.get('hidden'):
            continue
        lhs = st.get('lhs', '')
        fn = st.get('sourceLocation', {}).get('function', '') or ''
        if lhs.startswith('__') or 'write_set' in lhs or 'CPROVER' in fn or fn.startswith('__') or not fn:
            continue
        if lhs in ('set', 'idx', 'ptr', 'size', 'elem', 'may_fail', 'car', 'target', 'reference', 'candidate') or lhs.startswith('car.'):
            continue
        v = st.get('value', {})
        out.append('%s:%s %s = %s' % (fn, st.get('sourceLocation', {}).get('line', '?'), lhs, v.get('data', v.get('name'))))
    return out[-limit:]


def prove_plain(uname, cfile, qual, spec, tier):
    """Bounded stand-in without dfcc: a hand-written harness (spec['plain_harness']) builds the inputs, calls the translated
    function and asserts the property-level clauses; all loops are unwound with unwinding assertions."""
    cname = spec['_cname']
    rec = {'function': qual, 'cname': cname, 'status': 'undecided', 'obligations': [], 'seconds': 0.0, 'backend': 'sat (plain cbmc, bounded)',
           'reason': '', 'bounded': spec.get('bounded', 'bounded')}
    gb = os.path.join(GEN, '%s.%s.plain.gb' % (uname, cname))
    t0 = time.time()
    rc, o, e, _ = run(['goto-cc', '-I' + ROOT, '--function', 'hp_' + cname, cfile, '-o', gb], 120)
    if rc != 0:
        rec['reason'] = 'goto-cc failed: ' + (e or o)[-1500:]
        return rec
    bound = spec['unwind'][tier] if isinstance(spec.get('unwind'), dict) else spec.get('unwind', 16)
    cb = ['cbmc', gb, '--object-bits', '8'] + spec.get('checks', DEFAULT_CHECKS) + ['--unwind', str(bound), '--unwinding-assertions', '--json-ui']
    cap = 600 if tier == 'quick' else 3600
    rc, o, e, secs = run(cb, cap, mem_gb=spec.get('mem_gb', 16))
    rec['cmd'] = ' '.join(cb)
    rec['seconds'] = round(time.time() - t0, 2)
    if rc == 'timeout':
        rec['reason'] = 'cbmc timeout after %ds' % cap
        return rec
    res, status = parse_cbmc(o)
    if res is None:
        rec['reason'] = 'cbmc: %s %s' % (status, e[-500:])
        return rec
    obs = [{'name': x['property'], 'status': x['status'], 'description': x.get('description', ''),
            'function': x.get('sourceLocation', {}).get('function', ''), 'line': x.get('sourceLocation', {}).get('line', ''),
            'trace': digest_trace(x.get('trace'))} for x in res]
    canary = [x for x in obs if 'VERIF_CANARY' in x['description']]
    obs = [x for x in obs if 'VERIF_CANARY' not in x['description']]
    rec['obligations'] = obs
    if not obs:
        rec['reason'] = 'no obligations generated'
    elif all(x['status'] == 'SUCCESS' for x in obs):
        if not canary or canary[0]['status'] != 'FAILURE':
            rec['reason'] = 'vacuous: the end of the harness is unreachable'
        else:
            rec['status'] = 'proved'
    else:
        rec['status'] = 'failed'
    rec['canary_reached'] = bool(canary and canary[0]['status'] == 'FAILURE')
    return rec


def prove_function(uname, t, cfile, qual, spec, tier, extra_replace):
    """Returns dict(function, cname, status, obligations[], seconds, cmd, reason)."""
    if spec.get('plain_harness'):
        return prove_plain(uname, cfile, qual, spec, tier)
    cname = spec['_cname']
    rec = {'function': qual, 'cname': cname, 'status': 'undecided', 'obligations': [], 'seconds': 0.0,
           'backend': spec.get('solver', 'sat'), 'reason': ''}
    gb1 = os.path.join(GEN, '%s.%s.gb' % (uname, cname))
    gb2 = os.path.join(GEN, '%s.%s.dfcc.gb' % (uname, cname))
    t0 = time.time()
    rc, o, e, _ = run(['goto-cc', '-I' + ROOT, '-DVERIF_HARNESS_%s' % cname, '--function', 'h_' + cname, cfile, '-o', gb1], 120)
    if rc != 0:
        rec['reason'] = 'goto-cc failed: ' + (e or o)[-1500:]
        return rec
    text = open(cfile).read()
    # a callee is replaced only if it is actually called somewhere (its declaration alone is one occurrence;
    # goto-cc drops symbols that are never referenced and goto-instrument aborts on an unknown function)
    replace = [g for g in list(spec.get('replace', [])) + list(extra_replace)
               if g != cname and len(re.findall(r'\b%s\s*\(' % re.escape(g), text)) >= 2]
    seen = set()
    replace = [g for g in replace if not (g in seen or seen.add(g))]
    # a recursive function: its own recursive calls are assumed to satisfy the contract that is being enforced (induction on the call depth)
    gi = ['goto-instrument', '--dfcc', 'h_' + cname, '--enforce-contract-rec' if spec.get('recursive') else '--enforce-contract', cname]
    for g in replace:
        gi += ['--replace-call-with-contract', g]
    if not spec.get('no_loop_contracts'):
        gi += ['--apply-loop-contracts']
    gi += [gb1, gb2]
    rc, o, e, _ = run(gi, 300)
    if rc != 0:
        rec['reason'] = 'goto-instrument failed: ' + (e or o)[-1500:]
        return rec
    checks = spec.get('checks', DEFAULT_CHECKS)
    cb = ['cbmc', gb2, '--object-bits', 'OB'] + checks + ['--json-ui']
    if spec.get('unwind'):
        cb += ['--unwind', str(spec['unwind']), '--unwinding-assertions']
    if spec.get('unwindset'):
        cb += ['--unwindset', ','.join('%s:%d' % (k, v) for k, v in spec['unwindset'].items()), '--unwinding-assertions']
    solver = spec.get('solver', 'sat')
    if solver == 'cvc5':
        cb += ['--cvc5']
    elif solver == 'z3':
        cb += ['--z3']
    elif solver == 'cadical':
        cb += ['--sat-solver', 'cadical']
    cap = spec.get('timeout', {}).get(tier) if isinstance(spec.get('timeout'), dict) else None
    cap = cap or (300 if tier == 'quick' else 1800)
    # the number of object bits dominates solver time; start small and widen only when cbmc asks for it
    for ob in [b for b in (8, 9, 10, 12) if b >= spec.get('object_bits', 8)]:
        cb[3] = str(ob)
        rc, o, e, secs = run(cb, cap, mem_gb=spec.get('mem_gb', 16))
        if rc == 'timeout' or 'too many addressed objects' not in o:
            break
    rec['cmd'] = ' '.join(gi[:-2]) + ' && ' + ' '.join(cb)
    if spec.get('bounded'):
        rec['bounded'] = spec['bounded']
    rec['seconds'] = round(time.time() - t0, 2)
    if rc == 'timeout':
        rec['reason'] = 'cbmc timeout after %ds' % cap
        return rec
    res, status = parse_cbmc(o)
    if res is None:
        rec['reason'] = 'cbmc: %s %s' % (status, e[-500:])
        return rec
    if 'ignoring' in o and 'forall' in o:
        rec['reason'] = 'quantifier ignored by back end'
        return rec
    obs = []
    for x in res:
        loc = x.get('sourceLocation', {})
        obs.append({'name': x['property'], 'status': x['status'], 'description': x.get('description', ''),
                    'function': loc.get('function', ''), 'line': loc.get('line', ''),
                    'trace': digest_trace(x.get('trace'))})
    canary = [x for x in obs if 'VERIF_CANARY' in x['description']]
    obs = [x for x in obs if 'VERIF_CANARY' not in x['description']]
    rec['obligations'] = obs
    if not obs:
        rec['reason'] = 'no obligations generated'
        return rec
    if all(x['status'] == 'SUCCESS' for x in obs):
        # only now is the canary meaningful (a failed obligation can make it unreachable)
        if not canary or canary[0]['status'] != 'FAILURE':
            rec['reason'] = 'vacuous: the end of the harness is unreachable under the preconditions'
            return rec
        rec['status'] = 'proved'
    else:
        rec['status'] = 'failed'
    rec['canary_reached'] = bool(canary and canary[0]['status'] == 'FAILURE')
    return rec


def tag_obligations(rec, spec, stubs, unit):
    """Attach the property tag and clause text to contract-level obligations."""
    cname = rec['cname']
    ens = spec.get('ensures', [])
    for ob in rec['obligations']:
        ob['tag'] = None
        mt = re.match(r'\[(P:C\d+(?:,P:C\d+)*)\]\s*(.*)', ob.get('description', ''))
        if mt:      # assertion inside a model body that stands for an observer's precondition
            ob['tag'] = mt.group(1)
            ob['clause'] = mt.group(2)
            continue
        m = re.fullmatch(r'(\w+)\.postcondition\.(\d+)', ob['name'])
        if m and m.group(1) == cname:
            i = int(m.group(2)) - 1
            if i < len(ens):
                e = ens[i]
                ob['tag'] = e[0] if isinstance(e, tuple) else 'helper'
                ob['clause'] = e[1] if isinstance(e, tuple) else e
            continue
        m = re.fullmatch(r'(\w+)\.precondition\.(\d+)', ob['name'])
        if m:
            callee = m.group(1)
            i = int(m.group(2)) - 1
            reqs = None
            if callee in stubs:
                reqs = stubs[callee].get('requires', []) or ['1']
            else:
                for q, sp in unit['functions'].items():
                    if sp.get('_cname') == callee:
                        reqs = sp.get('requires', [])
            if reqs is not None and i < len(reqs):
                r = reqs[i]
                ob['tag'] = r[0] if isinstance(r, tuple) else 'helper'
                ob['clause'] = r[1] if isinstance(r, tuple) else r
                ob['callee'] = callee
    return rec


DEFAULT_REFUTE_UNWIND = 6


def _refute_without_loop_contract(uname, unit, result, tier, jobs, only):
    """A loop contract that no longer fits the loop it was written for (the loop was rewritten: the contract names a variable that is gone)
    makes the whole translation unit unreadable for goto-cc -- every function of the unit is then undecided.  For such a function
    (K = its `refute_unwind`, default 6) the unit is translated once more WITHOUT that function's loop contracts; the other functions are verified as usual, and the
    function itself is checked against its unchanged pre/postconditions with its loops unwound K times.  That is a bounded REFUTATION only: a failed
    obligation other than an unwinding assertion is a real counterexample to the contract (unwinding explores a subset of the executions) and is
    reported as failed; anything else stays undecided -- a bounded pass is never counted as a proof."""
    blocked = [r for r in result['functions'] if r['status'] == 'undecided' and r['reason'].startswith('goto-cc failed')]
    if not blocked:
        return
    err = blocked[0]['reason']
    hit = [(q, sp) for q, sp in unit['functions'].items() if sp.get('loops') and sp.get('refute_unwind', DEFAULT_REFUTE_UNWIND) and ("In function '%s'" % sp.get('_cname')) in err]
    if not hit:
        return
    q0 = hit[0][0]
    unit2 = load_unit(uname)
    unit2['functions'][q0]['loops'] = {}
    try:
        t2, text2 = translate(unit2)
    except (cxx2c.Unsupported, astdump.ExtractionError):
        return
    stubs = unit2.get('stubs', {})
    cfile2 = os.path.join(GEN, uname + '.noloop.c')
    harn = ''
    for qual, spec in unit2['functions'].items():
        if spec.get('plain_harness'):
            harn += 'void hp_%s(void) {\n%s\n  __CPROVER_assert(0, "VERIF_CANARY end of harness reachable");\n}\n' % (spec['_cname'], spec['plain_harness'])
        else:
            harn += harness_for(t2, spec['_cname'], spec)
    with open(cfile2, 'w') as fh:
        fh.write(text2 + '\n' + harn)
    todo = [(q, sp) for q, sp in unit2['functions'].items() if sp.get('prove', True) and (only is None or q in only or sp['_cname'] in only)]
    proved_here = [sp['_cname'] for q, sp in unit2['functions'].items() if not sp.get('inline_in_callers')]
    k = unit2['functions'][q0].get('refute_unwind', DEFAULT_REFUTE_UNWIND)
    recs = []
    with cf.ThreadPoolExecutor(max_workers=jobs) as ex:
        futs = []
        for q, sp in todo:
            extra = list(stubs.keys()) + [c for c in proved_here if c != sp['_cname'] and sp.get('replace_unit_callees', True)]
            if q == q0:
                sp = dict(sp, no_loop_contracts=True, unwind=k)
            futs.append(ex.submit(prove_function, uname + '.noloop', t2, cfile2, q, sp, tier, extra))
        for (q, sp), f in zip(todo, futs):
            rec = f.result()
            tag_obligations(rec, sp, stubs, unit2)
            rec['span'] = t2.spans.get(sp['_cname'])
            if q == q0:
                why = ('the loop contract of %s no longer fits its loop (%s); checked against the unchanged pre/postconditions with loops unwound %d times (bounded refutation)'
                       % (q0, err.split('error:')[-1].strip().splitlines()[0][:160], k))
                real = [o for o in rec['obligations'] if o['status'] == 'FAILURE' and 'unwinding assertion' not in o['description']]
                rec['obligations'] = [o for o in rec['obligations'] if 'unwinding assertion' not in o['description']]
                rec['bounded_refutation'] = k
                if rec['status'] == 'failed' and real:
                    rec['reason'] = why
                else:
                    rec['status'] = 'undecided'
                    rec['reason'] = why + ': no violation found, which decides nothing'
            recs.append(rec)
    result['functions'] = recs
    result['cfile'] = cfile2


def prove_unit(uname, tier='quick', jobs=8, only=None):
    os.makedirs(GEN, exist_ok=True)
    result = {'unit': uname, 'status': 'undecided', 'functions': [], 'reason': '', 'assumptions': [], 'spans': {}}
    try:
        unit = load_unit(uname)
        result['source'] = unit['source']
        t, text = translate(unit)
    except (cxx2c.Unsupported, astdump.ExtractionError) as ex:
        result['reason'] = '%s: %s' % (type(ex).__name__, ex)
        return result
    result['dropped'] = sorted(t.dropped)
    result['spans'] = {k: v for k, v in t.spans.items()}
    stubs = unit.get('stubs', {})
    cfile = os.path.join(GEN, uname + '.c')
    harn = ''
    for qual, spec in unit['functions'].items():
        if spec.get('plain_harness'):
            harn += 'void hp_%s(void) {\n%s\n  __CPROVER_assert(0, "VERIF_CANARY end of harness reachable");\n}\n' % (spec['_cname'], spec['plain_harness'])
        else:
            harn += harness_for(t, spec['_cname'], spec)
    with open(cfile, 'w') as fh:
        fh.write(text + '\n' + harn)
    result['cfile'] = cfile
    result['assumed'] = sorted(list(stubs.keys()) + list(unit.get('assumed_models', [])))
    todo = [(q, s) for q, s in unit['functions'].items() if s.get('prove', True) and (only is None or q in only or s['_cname'] in only)]
    # callees marked inline_in_callers keep their body at call sites (tiny functions, or functions returning a
    # pointer to an existing object, for which contract replacement is slower than the body)
    proved_here = [s['_cname'] for q, s in unit['functions'].items() if not s.get('inline_in_callers')]
    with cf.ThreadPoolExecutor(max_workers=jobs) as ex:
        futs = []
        for q, s in todo:
            # callees that are themselves functions under contract in this unit are replaced by their contracts
            extra = list(stubs.keys()) + [c for c in proved_here if c != s['_cname'] and s.get('replace_unit_callees', True)]
            futs.append(ex.submit(prove_function, uname, t, cfile, q, s, tier, extra))
        for (q, s), f in zip(todo, futs):
            rec = f.result()
            tag_obligations(rec, s, stubs, unit)
            rec['span'] = t.spans.get(s['_cname'])
            result['functions'].append(rec)
    _refute_without_loop_contract(uname, unit, result, tier, jobs, only)
    sts = [r['status'] for r in result['functions']]
    if any(s == 'undecided' for s in sts):
        result['status'] = 'undecided'
        result['reason'] = '; '.join('%s: %s' % (r['function'], r['reason']) for r in result['functions'] if r['status'] == 'undecided')
    elif any(s == 'failed' for s in sts):
        result['status'] = 'failed'
    else:
        result['status'] = 'proved'
    return result


if __name__ == '__main__':
    import sys
    r = prove_unit(sys.argv[1], only=sys.argv[2:] or None)
    print(r['status'], r['reason'])
    for f in r['functions']:
        n = len(f['obligations'])
        ok = sum(1 for o in f['obligations'] if o['status'] == 'SUCCESS')
        print('  %-40s %-9s %d/%d  %.1fs %s' % (f['function'], f['status'], ok, n, f['seconds'], f['reason'][:300]))
        for o in f['obligations']:
            if o['status'] == 'FAILURE':
                print('      FAIL', o['name'], o['description'][:110], o.get('tag'), 'line', o['line'])
