"""Extraction of clang-14 JSON AST dumps from /repo's current working tree.

Every dump is keyed by (source file, filter, sha256 of the source tree that can
influence it) and cached under build/ast/.  The cache key contains the content
hash of every file under /repo/include, /repo/lib and /repo/products, so an
edited working tree never reuses a stale dump.
"""
import hashlib
import json
import os
import subprocess
import sys

REPO = os.environ.get('VERIF_REPO', '/repo')
ROOT = os.path.dirname(os.path.dirname(os.path.abspath(__file__)))
BUILD = os.environ.get('VERIF_BUILD') or os.path.join(ROOT, 'build')

CLANG = 'clang++-14'
FLAGS = ['-fsyntax-only', '-std=c++14', '-fno-rtti', '-fno-exceptions', '-DNDEBUG',
         '-Wno-everything',
         '-I%s/include' % REPO, '-I%s/lib/llvm/Support' % REPO,
         '-I%s/products/libllbuild/include' % REPO,
         '-I%s/lib/BuildSystem' % REPO,
         '-include', '%s/include/libstdc++14-workaround.h' % REPO]

_tree_hash = None


def tree_hash():
    """sha256 over the content of every source file a dump can depend on."""
    global _tree_hash
    if _tree_hash is not None:
        return _tree_hash
    h = hashlib.sha256()
    for top in ('include', 'lib', 'products'):
        for d, dirs, files in sorted(os.walk(os.path.join(REPO, top))):
            dirs.sort()
            for f in sorted(files):
                if not f.endswith(('.h', '.cpp', '.c', '.def', '.inc', '.hpp')):
                    continue
                p = os.path.join(d, f)
                h.update(p.encode())
                try:
                    with open(p, 'rb') as fh:
                        h.update(fh.read())
                except OSError:
                    pass
    _tree_hash = h.hexdigest()
    return _tree_hash


class ExtractionError(Exception):
    pass


_src_hash = {}


def source_hash(source):
    """sha256 over the translation unit's own inputs: the source file and every header under /repo that
    clang says it includes (clang -MM).  A change anywhere else in /repo cannot change the dump."""
    if source in _src_hash:
        return _src_hash[source]
    src = os.path.join(REPO, source)
    if not os.path.exists(src):
        raise ExtractionError('source file missing: %s' % source)
    p = subprocess.run([CLANG] + [f for f in FLAGS if f != '-fsyntax-only'] + ['-MM', '-MG', src],
                       stdout=subprocess.PIPE, stderr=subprocess.PIPE)
    if p.returncode != 0:
        raise ExtractionError('clang -MM failed on %s: %s' % (source, p.stderr.decode()[-1500:]))
    deps = p.stdout.decode().replace('\\\n', ' ').split(':', 1)[1].split()
    h = hashlib.sha256()
    for d in sorted(set(deps)):
        if d.startswith(REPO):
            h.update(d.encode())
            try:
                with open(d, 'rb') as fh:
                    h.update(fh.read())
            except OSError:
                h.update(b'<missing>')
    _src_hash[source] = h.hexdigest()
    return _src_hash[source]


def _decode_many(s):
    dec = json.JSONDecoder()
    i = 0
    out = []
    n = len(s)
    while i < n:
        while i < n and s[i].isspace():
            i += 1
        if i >= n:
            break
        o, j = dec.raw_decode(s, i)
        out.append(o)
        i = j
    return out


def _fill_locs(node, st):
    """clang elides file/line when unchanged from the previously printed
    location; re-materialise 'line' and 'file' on every loc we see."""
    def fix(loc):
        if not isinstance(loc, dict):
            return
        for sub in ('spellingLoc', 'expansionLoc'):
            if sub in loc:
                fix(loc[sub])
        if 'file' in loc:
            st['file'] = loc['file']
        elif 'offset' in loc:
            loc['file'] = st.get('file')
        if 'line' in loc:
            st['line'] = loc['line']
        elif 'offset' in loc:
            loc['line'] = st.get('line')
    if 'loc' in node:
        fix(node['loc'])
    if 'range' in node:
        fix(node['range'].get('begin'))
        fix(node['range'].get('end'))
    for c in node.get('inner', []):
        if isinstance(c, dict):
            _fill_locs(c, st)


def dump(source, filt):
    """Return the list of top-level decls clang prints for -ast-dump-filter."""
    src = os.path.join(REPO, source)
    if not os.path.exists(src):
        raise ExtractionError('source file missing: %s' % source)
    key = hashlib.sha256(('%s|%s|%s' % (source, filt, source_hash(source))).encode()).hexdigest()[:24]
    os.makedirs(os.path.join(BUILD, 'ast'), exist_ok=True)
    path = os.path.join(BUILD, 'ast', key + '.json')
    if os.path.exists(path):
        with open(path) as fh:
            return json.load(fh)
    cmd = [CLANG] + FLAGS + ['-Xclang', '-ast-dump=json', '-Xclang',
                             '-ast-dump-filter=' + filt, src]
    p = subprocess.run(cmd, stdout=subprocess.PIPE, stderr=subprocess.PIPE)
    if p.returncode != 0:
        raise ExtractionError('clang failed on %s (filter %s): %s' %
                              (source, filt, p.stderr.decode()[-2000:]))
    objs = _decode_many(p.stdout.decode())
    st = {}
    for o in objs:
        _fill_locs(o, st)
    tmp = path + '.tmp%d' % os.getpid()
    with open(tmp, 'w') as fh:
        json.dump(objs, fh)
    os.replace(tmp, path)
    return objs


if __name__ == '__main__':
    objs = dump(sys.argv[1], sys.argv[2])
    print(len(objs), [(o.get('kind'), o.get('name')) for o in objs])
